"""Per-property configuration for ./check (extractors, evidence texts, non-triviality rule)."""

COMMON_ASSUME = [
    "theorems are about the Lean model; the model is tied to /repo by extraction (data, one function) and by differential execution (logic)",
    "Rust semantics of the constructs named in DESIGN.md section 3 (integer ops, `as`, Option/Result)",
]

PROPS = {
    "C20": {
        "extract": ["checked_add_signed", "displace_sites"],
        "rule": "cases = all 65 536 (u8,i8) pairs + boundary lattice x random (half steered to the 0 / MAX boundary) for 16/32/64/128-bit and usize; "
                "non-trivial = the case exercises a decided outcome (tag some/none) — every generated pair does; distinct = distinct (width,l,r)",
        "trivial_tags": [],
        "exhaustive": {"quick": True, "thorough": True},
        "explanation": "exhaustive refers to the u8 x i8 instance (quick) and additionally u16 x i16 judged in-process against i64 arithmetic (thorough); wider instances are covered by the width-generic theorem plus lattice/random differential cases",
        "trusted_base": [
            "extract/rustexpr.py: translation of the macro body (let-tuple, overflowing_add, `as Self`, ^, <, if/else, Some/None) to Lean over BitVec n",
            "MediaSan/Rust.lean: meaning of overflowing_add / as / signed comparison",
        ],
        "assumptions": COMMON_ASSUME + ["usize is 64 bits on the target the harness runs on"],
    },
}

PROPS["C17"] = {
    "extract": ["webp_codec"],
    "rule": "cases = (value -> put -> parse) for every webm_int! type: all 256 u8/i8 and all 65 536 u16/i16 values, boundary + all-bytes-distinct + random for 32/64-bit; "
            "(bytes -> parse -> put) for ints, U24 and OneBasedU24; for each chunk (VP8X, ANIM, ANMF, ALPH, chunk header): every value of the first and last byte, every single non-zero byte, "
            "random payloads (3/4 masked to be valid), the VP8X canvas-area boundary, trailing bytes, and every shorter-than-ENCODED_LEN buffer. "
            "non-trivial = the payload parsed (tag ok) or was rejected for a payload reason (tag rejected) or is a primitive round trip; trivial = too-short buffers (tag short)",
    "trivial_tags": ["short", "Vp8xChunk", "AnimChunk", "AnmfChunk", "AlphChunk", "ChunkHeader"],
    "exhaustive": {"quick": True, "thorough": True},
    "explanation": "exhaustive refers to the 8- and 16-bit integer primitives and to the first/last byte of every chunk; wider fields are covered by the schema-generic theorems plus boundary/random cases",
    "trusted_base": [
        "extract.py `webp_codec`: anchors on webm_int!, U24/OneBasedU24/WebmFlags/Reserved impls, bitflags! blocks, the four chunk structs' parse/put_buf bodies and ENCODED_LEN, ChunkHeader",
        "bytes::Buf getters/putters: `get_uN_le`/`put_uN_le` little-endian, `get_uN`/`put_uN` big-endian, get_uint(_le)/put_uint(_le); bitflags::from_bits rejects unknown bits",
        "MediaSan/Spec/WebpLayout.lean: hand-written byte layouts from the WebP container specification (the little-endian oracle)",
    ],
    "assumptions": COMMON_ASSUME + [
        "signed integers are compared through their two's-complement bit patterns",
        "buffers handed to chunk parsers hold at least ENCODED_LEN bytes (what ChunkReader::parse_data guarantees); shorter buffers are only compared model-vs-code, not judged",
    ],
}

MP4_TRUSTED = [
    "hand-written model lean/MediaSan/Mp4/{Header,Tree,Sanitize}.lean of mp4san/src/lib.rs and parse/*.rs, tied by differential execution on every run",
    "MediaSan/Spec/{Mp4Walk,Mp4Rules}.lean: independent box walker and the declarative reading of the property (evaluated on the real output)",
    "ideal-cursor model of std::io::Cursor / futures BufReader / SeekSkipAdapter (seekable) and of a strict custom Skip (strict); sparse-stream readers of the harness",
    "bytes::BytesMut split/advance, derive(ParseBox/ParsedBox) expansion, Vec/BytesMut lengths below isize::MAX",
]
MP4_RULE = ("cases = `remux` generator (1-4 traks, stco/co64 mix, unknown/uuid siblings at all five levels, 32/64-bit/until-end headers, "
            "entries from the boundary lattice {0,1,2^31-1,2^31,2^32-2,2^32-1,2^63,2^64-1} +- shift, gaps {0..40, 64, 1000, 65536, 2^32-8.., 2^33+5} realised as sparse free/skip boxes, "
            "1-3 sparse mdat boxes with interleaved free/skip/meta/meco, earlier moov boxes, config limits around the moov size) x {seekable, strict} readers, "
            "one tenth byte-flipped and one tenth truncated; plus moov-first (no-op) files. non-trivial = the scan got past the ftyp box (any tag other than E-InvalidBoxLayout/E-UnsupportedFormat on a 0-1 box file); distinct = distinct case lines")

PROPS["C01"] = {
    "extract": ["checked_add_signed", "displace_sites"],
    "rule": MP4_RULE,
    "trivial_if_any": ["boxes0", "boxes1"],
    "shards": {"quick": 4, "thorough": 16},
    "trusted_base": MP4_TRUSTED,
    "assumptions": COMMON_ASSUME + ["that the rewrite traversal visits exactly the tables an independent walker finds is checked per case (Spec_C01 on the real output), not yet proved"],
}

for _pid, _extra in (("C02", "every rewritten output is really concatenated with the media span and re-sanitized by the harness"),
                     ("C03", "every provided reader kind: seek-based (SeekSkipAdapter over a Cursor-like Read+Seek) and a strict custom Skip; until-EOF mdat with cumulative sizes {none,0,1,7,8,9,exact-1,exact,exact+1,..,2^32-1}; declared sizes overrunning the input by {1,2,8,900,2^20,2^32+3,2^62,2^64-41} on every skippable box kind; exhaustive top-level layouts up to length 3 (4 in thorough)"),
                     ("C04", "rich trees: unknown and uuid siblings before/after the box of interest at all five levels, 64-bit and until-end child headers, ftyp payloads with 0-3 trailing bytes"),
                     ("C05", "exhaustive top-level layouts up to length 4 (5 in thorough) over {ftyp,moov,mdat,free,skip,meta,meco,unknown,uuid}; size-field pathologies (0,1,2,7,8,9; 64-bit exact/+-1/15/16/max/0) on each box kind in each position; ftyp payload lengths {0,4,7,8,9,11,12,1020,1023,1024,1025,2000} and isom placement; 40 moov-tree mutants (missing/duplicate/extra box per level, malformed tables, child size pathologies) x {no-op, rewrite} x limits {0,size-1,size,size+1,2^64-1}; every truncation point of selected files")):
    PROPS[_pid] = {
        "extract": [],
        "rule": MP4_RULE + "; additionally for this property: " + _extra,
        "trivial_if_any": ["boxes0", "boxes1"],
        "shards": {"quick": 4, "thorough": 16},
        "trusted_base": MP4_TRUSTED,
        "assumptions": COMMON_ASSUME + ["the whole-run statement of this property is evaluated on the implementation's output for every generated case (Spec in MediaSan/Spec/Mp4Rules.lean); the theorems cover the components named in the Props file"],
    }
PROPS["C05"]["extract"] = ["mp4_consts"]
PROPS["C16"] = {
    "extract": ["mp4_consts"],
    "rule": "cases = headers: 4 name classes x 13 size-field values x 16 truncation points + 64-bit size values + random; constructors: the full grid u32::MAX-24..u32::MAX+24 and u64::MAX-40..u64::MAX for a FourCC, a uuid and the FourCC spelling `uuid`, both constructors; trees: random rich moov boxes (1-3 traks, unknown/uuid siblings, 32/64-bit/until-end headers at every level, one in six corrupted, one in five with trailing bytes) x random sequences of typed accessor calls {parse, traks, mdia_mut, minf_mut, stbl_mut, co_mut on all/first/last trak} and the sanitizer's own sequence; values: 500 (6600) stco / co64 payloads (entry count below / at / above what the payload holds, a random count, ragged tails, non-zero version / flags, truncations) and ftyp payloads of 0..29 bytes through the DERIVED ParseBox::parse itself (not through Mp4Box / BoxData, which test for left-over bytes a second time), serialised again: encoded_len = bytes written = the whole payload, verdict equal to the model's parseCo / parseFtyp. non-trivial = everything except headers too short to decode (tag trunc)",
    "trivial_tags": ["hdr", "trunc"],
    "trusted_base": MP4_TRUSTED + ["extract.py `mp4_consts`: mp4_int! rows and constants"],
    "assumptions": COMMON_ASSUME + ["BoxType::FourCC(*b\"uuid\") cannot be obtained by parsing and is excluded from the decode-back claim (compared with the model only)",
                                    "after a *failed* accessor call the lazily parsed buffer may be partly consumed; the round-trip claim is about successfully obtained values (length agreement is still required)"],
}
PROPS["C05"]["exhaustive"] = {"quick": True, "thorough": True}
PROPS["C05"]["explanation"] = "exhaustive = all top-level layouts up to the stated length over the 9-letter box alphabet"

LOSSLESS_RULE = ("cases = (i) header-phase streams synthesised from the RFC 9649 grammar by an independent bit writer (harness/src/synth.rs): every subset and order of the four transforms, "
                 "colour cache bits 0..15, meta prefix image, simple codes (one symbol, two symbols, the same symbol twice, 1-bit and 8-bit forms) and normal codes (with/without max_symbol, repeat codes 16/17/18), "
                 "literals / back-references / cache indices, image sizes 1x1..40x40 and 16384-wide/tall strips; each with one planted rule violation in turn "
                 "(duplicate transform, cache bits 0 / >11, max_symbol > alphabet, repeat overrun, incomplete / over-subscribed code, incomplete code-length code, distance symbol outside the alphabet, "
                 "back-reference before the start / past the end, predictor > 13) or a valid corner case (same symbol twice, single symbol of length 2, all four transforms); "
                 "(ii) libwebp 1.3.1 encoder output (methods 0-6, qualities, near-lossless, exact; noise/gradient/flat/2-4-16-200-colour palettes/photo-like/stripes; 1x1 .. 512x512 and 4096-wide strips) as VP8L and as lossless ALPH (filters 0-2); "
                 "(iii) (ii) under bit flips, byte changes, splices, truncation (every byte for small images). Every payload is judged by webpsan (through a minimal container), by the Lean model and by libwebp's VP8LDecodeHeader / VP8LDecodeAlphaHeader. "
                 "non-trivial = the payload got past the 5-byte VP8L header / ALPH header byte (any tag accepted, or rejected with ref verdict); distinct = distinct payloads")
for _pid in ("C07", "C08"):
    PROPS[_pid] = {
        "extract": ["vp8l_tables"],
        "rule": LOSSLESS_RULE,
        "trivial_tags": [],
        "shards": {"quick": 8, "thorough": 16},
        "trusted_base": [
            "hand-written model lean/MediaSan/Vp8l/{Bits,Huffman,Lossless}.lean of webpsan/src/parse/{lossless,bitstream,vp8l,alph}.rs over the ideal bit string (C19 relates the buffered reader), tied by differential execution",
            "extract.py `vp8l_tables`: DISTANCE_MAP, CODE_ORDER, alphabet sizes and numeric bounds, plus anchors on each validity check",
            "libwebp 1.3.1 as vendored in libwebp-sys 0.9.6 (offline registry) is the meaning of 'the reference decoder'; its C code is executed through harness/refdec/shim.c (VP8LDecodeHeader, VP8LDecodeAlphaHeader), not modelled",
            "bitstream-io 1.x: LSB-first BitReader, compile_read_tree / read_huffman semantics as modelled in Vp8l/Huffman.lean",
        ],
        "assumptions": COMMON_ASSUME + ["the lossy `VP8 ` payload is never inspected by webpsan and therefore by nothing here"],
    }
PROPS["C08"]["assumptions"] = PROPS["C08"]["assumptions"] + [
    "documented strictness is recognised by re-running the model with the predictor check off and single-symbol codes of any length accepted: a rejection that disappears under that setting is not a C08 violation"]

PROPS["C18"] = {
    "extract": ["vp8l_tables"],
    "rule": "cases = every length vector over k = 1..5 symbols (6 in thorough) with lengths 0..5 (exhaustive); all 4096 12-bit strings for four fixed codes; random vectors over the real alphabets {19,40,256,280,282,344,1304,2328} with lengths 1..15 that are complete (random full binary trees), under-subscribed (one code lengthened) or over-subscribed (one extra leaf), with explicit zero lengths sprinkled in; each decoded against 8-64 random bytes through BitBufReader::read_huffman. non-trivial = at least two used symbols or a decoded accepted code (everything except tag used0)",
    "trivial_if_any": ["used0"],
    "shards": {"quick": 8, "thorough": 16},
    "exhaustive": {"quick": True, "thorough": True},
    "explanation": "exhaustive = all length vectors over up to 5 (quick) / 6 (thorough) symbols with lengths 0..5",
    "trusted_base": [
        "lean/MediaSan/Vp8l/Huffman.lean: model of CanonicalHuffmanTree::{symbols, from_symbols} and of bitstream-io's WipHuffmanTree::{add, into_read_tree} / read_huffman",
        "MediaSan/Spec/CanonicalCode.lean: Kraft sum, RFC 1951/9649 next_code assignment and prefix-match decoding (independent oracle)",
        "sort_unstable_by_key on distinct (length, symbol) keys is deterministic",
    ],
    "assumptions": COMMON_ASSUME + ["symbols in a length vector are distinct (the callers build them from a running index; the simple-code path dedups)"],
}

PROPS["C19"] = {
    "extract": ["vp8l_tables"],
    "rule": "cases = (a) public BitBufReader API: random byte strings of 0..240 bytes x random sequences of up to 60 operations {read(n) for n in 1..32, read_bit, read_huffman over four fixed complete codes incl. a single-leaf and a 15-bit one} x capacities 16..64 (all visited) and 4096 x short-read patterns {1 byte per read, unlimited, fixed and random cycles}; (b) in situ through the capacity hook: encoder output, lossless ALPH, specification-synthesised valid/invalid streams and their truncations, each sanitized at capacities {16,17,19,23,31,32,47,64,4096}. non-trivial = every case (each performs at least one read); distinct = distinct case lines",
    "trivial_tags": [],
    "shards": {"quick": 8, "thorough": 16},
    "trusted_base": [
        "lean/MediaSan/Vp8l/BitBuf.lean: model of BitBufReader::{fill_buf, buf_bits, buf_read, read, read_bit, read_huffman}; Vec capacity stays as requested; read_to_end over take() retries short reads until the limit or end of input",
        "hook in /repo (cfg signalapp_mp4san_verif): VERIF_BIT_BUF_CAPACITY read by the two sanitize_image_data functions",
        "bitstream-io BitReader<Cursor<Vec<u8>>, LE>: position_in_bits, skip, read, read_huffman semantics",
    ],
    "assumptions": COMMON_ASSUME + ["the sub-image loop's buffer-only accessors are covered by C19_readahead (read-ahead <= 81 bits < 8*16-7) and by the in-situ runs; `buf_read_lz77` extra bits are `buf_read`"],
}

PROPS["C06"] = {
    "extract": ["webp_codec", "webp_consts", "vp8l_tables"],
    "rule": "cases = exhaustive chunk sequences up to length 2 (3 in thorough) after VP8X over {VP8, VP8L, VP8X, ALPH, ANIM, ANMF(lossy), ANMF(lossless), ICCP, EXIF, XMP, unknown} x all 32 VP8X flag sets, and the same sequences as simple files; every sequence up to length 2 (3) inside an ANMF frame over {ALPH, VP8, VP8L, unknown, EXIF, ANMF, ANIM} x alpha flag x frame = / < canvas; framing families on four valid files (RIFF size field true-9..true+1000 with and without trailing bytes; every truncation point; every chunk size field +1/-1/+2/+100000/max, also inside frames); odd sizes with pad byte 0 / non-zero / missing; odd RIFF size; RIFF sizes 2^32-12..2^32-1 on sparse streams; reserved bits and exact sizes of VP8X/ANIM/ANMF; canvas/frame dimension relations; libwebp encoder and muxer output (lossless, lossy, lossy+alpha, animations with sub-canvas frames, ICC/EXIF/XMP) and single-byte corruptions of it; all on a seek-based and a strict reader and with both Config values. non-trivial = the RIFF/WEBP header was accepted and at least one chunk header was read (every tag except n1 with an error); distinct = distinct case lines",
    "trivial_tags": [],
    "shards": {"quick": 8, "thorough": 16},
    "exhaustive": {"quick": True, "thorough": True},
    "explanation": "exhaustive = all chunk sequences of the stated length over the chunk alphabet x all 32 flag sets, at file level and inside ANMF",
    "trusted_base": [
        "hand-written model lean/MediaSan/Webp/Sanitize.lean of webpsan/src/{lib,reader}.rs as a three-level reader stack over one cursor (BufReader(8) layers transparent by C15), tied by differential execution",
        "MediaSan/Spec/WebpGrammar.lean: recursive-descent recogniser written from the property text / WebP container specification; 'valid lossless payload' = the validator model of C07/C08",
        "extract.py `webp_consts` / `webp_codec`: MAX_FILE_LEN, chunk names, known-chunk lists, allow_unknown gates, chunk schemas",
    ],
    "assumptions": COMMON_ASSUME,
}

PROPS["C13"] = {
    "extract": [],
    "rule": "cases = for each file of a corpus (mp4: rewrite, no-op, until-EOF moov, until-EOF mdat with and without cumulative size, truncated, missing moov, unknown box, moov over the limit, three random remux files; webp: documentation example, lossy, extended still with ICCP/EXIF/XMP, lossy+alpha with a trailing unknown chunk, animation with ALPH+VP8 and VP8L frames, truncated, wrong order, unknown chunk denied) the number N of read/skip/position/length operations of the fault-free run is measured, then every operation index 0..N-1 x {Other, PermissionDenied, TimedOut, WouldBlock, InvalidData, UnexpectedEof} is injected (fault_enumeration, exhaustive per file), sync for both sanitizers and async for mp4, plus one fault scheduled after the last operation. non-trivial = the fault was consumed (tag consumed); distinct = distinct (file, mode, index, kind)",
    "trivial_if_any": ["past"],
    "exhaustive": {"quick": True, "thorough": True},
    "explanation": "exhaustive = every operation index of every corpus run x all six error kinds",
    "shards": {"quick": 4, "thorough": 8},
    "trusted_base": [
        "harness/src/c13.rs: fault-injecting Read+Skip / AsyncRead+AsyncSkip wrappers around a Cursor-like sparse reader",
        "lean/MediaSan/Adapters.lean: BufReader(32) over a raw input whose k-th operation fails (index-aligned with the real mp4 reader stack); for webpsan the nested per-level buffers make indices implementation-specific, so faulted webp runs are judged by the Spec and by the generic theorem only",
        "read_exact retries only ErrorKind::Interrupted (not among the injected kinds)",
    ],
    "assumptions": COMMON_ASSUME,
}

ADAPTER_TRUSTED = [
    "lean/MediaSan/Adapters.lean: RawOps (Read::read with short reads + Skip), BufReader(cap) of std and futures-util (fill when empty, bypass when empty and request >= capacity, read_exact / read_to_end loops) with the Skip impl of common/src/skip.rs and async_skip.rs, SeekSkipAdapter over std::io::Cursor seek semantics",
    "forwarding impls (&mut, Box, Pin) and AsyncInputAdapter are one-line delegations: covered by the correspondence, not modelled separately",
    "std::fs::File is exercised by the harness and modelled as the seek-based ideal cursor",
]
PROPS["C15"] = {
    "extract": [],
    "rule": "cases = webpsan's ChunkDataReader at depth 1 and 2 (tags chunkdata1 / chunkdata2): ALL histories up to length 4 (5) over {read 0/1/2, skip 0/1/2/3, stream_position, stream_len} on bodies of 0..5 bytes, inside the body except possibly for the last operation, and 600 (6000) random histories on bodies up to 70 bytes incl. files ending inside the body; and ALL histories up to length 4 (5 in thorough) over {read 1/2/3, skip 0/1/2/3, stream_position, stream_len} on an 8-byte stream (cut at the first operation leaving the stream) x capacities 1..9 x the buffered adapters (std BufReader over Cursor / over SeekSkipAdapter, &mut, Box, BufReader over Box over BufReader, futures BufReader, Pin<Box>, futures BufReader over futures BufReader) and the unbuffered ones (Cursor, SeekSkipAdapter, futures Cursor, SeekSkipAdapter over futures Cursor) and two buffered async adapters whose inner native AsyncSkip reader returns Pending once / twice at every poll (driven by a polling loop); long random histories (up to 40 ops, reads up to 2 x capacity, skips 0 / < buffered / = / > buffered) on streams of 1..300 bytes over all 13 adapters incl. a real File, capacities 1..64, 32, 8 and 8192; sparse streams of 2^40..2^64-1 bytes with skip amounts i64::MAX-1, i64::MAX, i64::MAX+1, 2^62, 2^63+6. non-trivial = histories with at least two operations (tags n2..n9); distinct = distinct (adapter, capacity, stream, history)",
    "trivial_if_any": ["n0", "n1"],
    "shards": {"quick": 8, "thorough": 16},
    "exhaustive": {"quick": True, "thorough": True},
    "explanation": "exhaustive = all histories of the stated length over the 9-operation alphabet for every capacity 1..9",
    "trusted_base": ADAPTER_TRUSTED,
    "assumptions": COMMON_ASSUME + ["streams shorter than 2^62 bytes in the theorem (the error *kind* of a u64-overflowing skip through a non-empty buffer differs above that); the correspondence also covers streams up to 2^64-1"],
}
PROPS["C11"] = {
    "extract": [],
    "rule": "cases = each input (C13's mp4 and webp corpora, 250 (3000) random remux files of which a tenth truncated and a tenth byte-flipped, 125 (1500) random VP8X chunk sequences) is run through every variant: sanitize / sanitize_with_config / sanitize_async(_with_config); Cursor<Vec>, Cursor<&[u8]>, futures Cursor, SeekSkipAdapter (sync and async), File; std and futures BufReader with capacities {1,2,3,7,8,31,32,33,64,8192, two random in 1..64}; depth-3 stacks (Box<BufReader<SeekSkipAdapter<Cursor>>>, BufReader<Box<BufReader<Cursor>>>, &mut BufReader, Pin<Box<futures BufReader>>, futures BufReader over futures BufReader); readers returning at most k bytes per read for k patterns {1}, {2}, {3,1}, {7,1,2}, random, alone and under a BufReader (about 50 variants per mp4 input, 25 per webp input). All results must be identical, and equal to the Lean model's answer on the ideal cursor AND on BufReader(32) over single-byte reads. non-trivial = every case; distinct = distinct inputs",
    "trivial_tags": [],
    "shards": {"quick": 4, "thorough": 16},
    "trusted_base": ADAPTER_TRUSTED,
    "assumptions": COMMON_ASSUME + ["the async functions are driven to completion with now_or_never: in-memory futures never return Pending (suspension schedules are C12)"],
}

PROPS["C14"] = {
    "extract": [],
    "rule": "cases = one input run under a lattice of configurations. limit: 200 (2000) files with one or two moov boxes in six layouts (incl. skippable boxes before the media, so that padding vs displacement is decided) (a sixth bit-flipped, a sixth truncated, a sixth with a trailing box) under max_metadata_size in {0, 1, m-1, m, m+1 for each moov payload size m, 2^30, u64::MAX}: every result must be InvalidInput or equal to the result at the top limit, rejections are downward closed in the limit, and each result equals the model's. cum: 200 (2000) files with an until-EOF mdat in three positions, a sized mdat, or an until-EOF non-mdat, under cumulative_mdat_box_size in {none, 0,1,2,7,8,9, exact-1, exact, exact+1, exact+40, 100000, u32::MAX}: the result with the option set must equal the result of the input whose mdat size field is rewritten to that value with the option unset, must equal the unset result when there is no until-EOF mdat, and equals the model's. unknown: 600 (6000) chunk sequences (simple / extended / animated, unknown chunks trailing, inside ANMF, and mid-sequence; each of the nine known chunk names out of place at file level and after the frame data inside ANMF) with allow_unknown_chunks off and on: off-result is UnsupportedChunk or equals on-result; both equal the model's. non-trivial = cases where the option changes the result (tags limit-bites / option-bites) or the input is accepted; distinct = distinct inputs",
    "trivial_tags": ["limit", "cum", "unknown", "limit-irrelevant", "option-inert", "rejected", "no-eof-mdat", "eof-mdat"],
    "shards": {"quick": 4, "thorough": 16},
    "trusted_base": MP4_TRUSTED + ["the WebP container model (MediaSan/Webp/Sanitize.lean), validated per case", "the builder setters (ConfigBuilder) are exercised by the harness, not modelled: the model takes the configuration record"],
    "assumptions": COMMON_ASSUME + ["limits above 2^24 are not run on inputs whose corrupted size field declares a moov above 2^24 bytes (the real allocation of such a buffer is outside the model; allocation behaviour is C10)"],
}

PROPS["C12"] = {
    "extract": [],
    "rule": "cases = (input, reader, schedule): 29 inputs that drive every await point (12 of them move a 64-bit box header through every alignment relative to the sanitizer's 32-byte buffer, so that each header field is split between buffered bytes and a suspended read; 32/64-bit header reads, ftyp/moov payload reads, skips small and above i64::MAX, position/length queries for until-EOF moov, mdat and free, the end-of-scan length check, truncated / invalid inputs, remux files) x 3 readers (native AsyncSkip seek-based, native strict, SeekSkipAdapter over AsyncRead+AsyncSeek) x schedules: none, EVERY single suspended poll index (one past the end too), EVERY pair over the first 48 (400) indices, every triple over the first 40 (thorough), every poll suspended once / twice, every third, 50 suspensions up front, 40 (400) random densities. The future is polled by a deterministic executor; a suspended poll makes no progress and wakes the task. The result must equal the synchronous call's and the Lean model's async run (same schedule) must reproduce it. non-trivial = schedules in which at least one suspension was actually consumed (tag bites); distinct = distinct (input, reader, schedule)",
    "trivial_if_any": ["inert"],
    "shards": {"quick": 8, "thorough": 16},
    "exhaustive": {"quick": True, "thorough": True},
    "explanation": "exhaustive = all schedules with at most one suspension over every poll index of every (input, reader), and all with two over the stated prefix",
    "trusted_base": ADAPTER_TRUSTED + ["MediaSan/Async.lean: the poll functions of common/src/async_skip.rs as restart-from-the-top state machines, validated by reproducing the real async result under every generated schedule (including the defective ones)", "the compiler's lowering of async fn and futures-util's read_exact / fill_buf / BufReader futures (progress kept in the future or the buffer) are trusted; they are exercised, not modelled"],
    "assumptions": COMMON_ASSUME + ["the underlying reader obeys the contract in the property (Pending = no progress + wake)"],
}

PROPS["C10"] = {
    "extract": [],
    "rule": "cases = mp4: 240 (1500) layouts over sparse streams - moov first / gap boxes (free, skip, meta, meco; virtual sizes 0..2^36) + one or two mdat (virtual sizes up to 2^36) + moov last (32-bit, 64-bit, until-EOF) / interleaved skippable boxes and two moovs / a moov declaring more than the limit (limit+1, 2^32-9, 2^40, 2^64-17) / until-EOF mdat / unknown box after huge media; moov payloads small, at limit-2..limit+3, ftyp with 1..250 brands; max_metadata_size in {4 KiB, 8 KiB, 64 KiB, 1 MiB, 16 MiB, 1 GiB}; seek-based and strict readers. Each input runs twice, the second time with bytes inside every media/gap payload changed. Observed through a metering Read+Skip (every byte range delivered) and a counting global allocator (peak live-heap growth during the call). Required: identical results of the two runs; no byte read beyond 64 bytes into a skippable box; bytes read <= ftyp box + moov boxes + 32 x (top-level boxes + 1); returned metadata <= 2 x (limit + 1024 + 32); peak heap <= 4 x limit + 64 KiB; and result, byte count and exact read ranges equal the Lean model's BufReader(32)-over-tracing-input run. webp: zero-bit-code lossless streams declaring 1x1 .. 16384x16384 with entropy sub-images of up to 4096x4096 pixels (as VP8L and as ALPH), encoder streams re-declared as 16384x16384, 40 (200) synthesised streams incl. 11-bit colour caches, ICCP chunks of 2^20, 2^28, 2^32-30 virtual bytes: peak heap <= 4 MiB whatever is declared, never reads more than the input. non-trivial = accepted inputs, multi-GiB streams, over-limit declarations, large declared images; distinct = distinct inputs",
    "trivial_tags": ["mp4", "webp", "rejected", "small", "large-limit", "small-limit", "within", "small-declared", "small-file"],
    "shards": {"quick": 8, "thorough": 16},
    "trusted_base": MP4_TRUSTED + ["the counting allocator and metering reader of the harness (harness/src/main.rs, c10.rs)", "MediaSan/Meter.lean: tracing input; validated by exact agreement of read ranges with the real run"],
    "assumptions": COMMON_ASSUME + ["'a small multiple of max_metadata_size plus a constant' is read as 4 x limit + 64 KiB for the peak heap and 2 x limit + 1088 for the returned metadata; 'a constant' for webpsan as 4 MiB (measured maxima: about 200 KiB)", "the 32-byte look-ahead is read as a count (32 bytes per top-level box visited, plus one final fill); positionally a fill that starts mid-header can reach up to 63 bytes into a box, which is what the media-inspection check allows", "bytes read by an operation that then fails are not part of the accounting theorem (they are part of the measured check)"],
}

PROPS["C10"]["rule"] += "; webp additionally: valid 1x1 lossless streams (VP8L and lossless ALPH) whose one-pixel entropy image names prefix-code group N-1, so that the validator reads N groups (2.5 input bytes per group) for N in {1,16,256,4096} (65536 in thorough): every run must be accepted and the peak heap may not follow N (within 16 KiB of the smallest run)"

PROPS["C09"] = {
    "extract": [],
    "rule": "cases = every base input (the C12/C13 corpora, remux files, every malformed-moov family, WebP container corpus, encoder ALPH streams, specification-synthesised lossless streams valid and with each rule broken) under: EVERY truncation point; one flipped bit / 0x00 / 0xff per byte; the 32-bit values {0, 1, 7, 2^31-1, 2^31, 2^32-9, 2^32-1} big- and little-endian at every aligned offset; splices of two inputs; every single bit of short lossless streams flipped; sparse MP4 giants (64-bit sizes near 2^63 and 2^64, until-EOF boxes, huge skips); the largest declarable lossless image (16384x16384) with zero-bit codes. Configurations: random max_metadata_size <= 1 GiB and cumulative sizes. Each case runs under catch_unwind with overflow checks and debug assertions on, on seek-based and strict readers, MP4 also through the async entry point polled once (the sync wrapper's assumption), with a watchdog thread that reports a hang after 20 s; the Lean model must return the same outcome and never its own panic / out-of-fuel value. non-trivial = every mutated case; distinct = distinct inputs",
    "trivial_tags": ["base"],
    "shards": {"quick": 8, "thorough": 16},
    "exhaustive": {"quick": True, "thorough": True},
    "explanation": "exhaustive = all truncation points of every base input, all single-bit flips of the short lossless streams",
    "trusted_base": MP4_TRUSTED + ["the WebP container and lossless models (validated per case)", "catch_unwind + the harness watchdog thread observe panics and hangs; aborts (allocation failure, stack overflow) would end the harness process, which the check reports as a broken run"],
    "assumptions": COMMON_ASSUME + ["memory safety of unsafe code in dependencies, stack depth and allocation-failure aborts are outside the model and are observed only through the process surviving the whole case stream", "bounded time is judged as: no case above 10 s, no hang above 20 s (largest observed: the 16384x16384 zero-bit image)"],
}

NOT_APPLICABLE = {}

MANIFEST_TEXT = {
    "C09": {
        "text": "Lean theorem C09_mp4_total: for EVERY stream shorter than 2^64 bytes, seek-based or strict skip, and every configuration with max_metadata_size <= 4 x (2^32-1) and a 32-bit cumulative size, the model of mp4san's sanitize returns a value, a parse error or an I/O error - never a panic (no u64/u32 overflow, no unwrap/unreachable site) and never out of loop fuel (the scan loop ends within len/8+2 iterations since every iteration consumes at least a header). Proved with a program logic over I/O programs (Safe: rules for bind, read_exact, skip, position/length queries on the ideal cursor) and the loop invariant 'cursor is a u64, collected span lies behind it, kept ftyp/moov payloads within their limits'; the chunk-count sum cannot overflow because the counts are paid for by payload bytes (4 x sum <= payload length, proved through all five nesting levels of the lazily parsed tree); the rewrite and every tree combinator only propagate panics. With C11's simulation the same holds behind BufReader of any capacity. webpsan: theorems C09_webp_total / C09_webp_no_panic - for EVERY stream and configuration, seek-based or strict skip, the model of webpsan's sanitize returns Ok, a parse error or an I/O error: it never runs out of loop fuel (a header read from the stream costs 8 bytes that must exist, an ANMF body 16, so the unknown-chunk loops and the frame loop end within len/8+2 iterations from wherever they start) and never panics: the chunk-reader protocol assertions ('read_header must be read after peek_header'), the unreachable padding states, the stream_position()-8 underflow and codec reads on short buffers are dead, by the reader-stack invariant PeekInv carried through every function of the container walk in the same program logic; and C09_vp8l_no_panic - the lossless validator never panics for ANY payload and declared size (read_huffman only ever walks complete tries within their height; the unreachable! for a code-length symbol >= 19 is dead because the code-length code names only CODE_ORDER entries, a table regenerated from the source). The real crates are exercised under catch_unwind + watchdog with overflow checks and debug assertions over exhaustive truncation, bit/byte/field mutation, splices and sparse giants, both sanitizers, sync and async entry points; the model must reproduce every outcome and never yield its own panic/out-of-fuel value.",
        "note": "Aborts and stack exhaustion are observable only as a dead harness process. Trusted: see evidence.",
        "technique": "Lean 4 proof: Hoare-style program logic over I/O programs with a loop invariant (whole-program panic-freedom and termination of the MP4 model; whole-program panic-freedom and termination of the WebP container walk, panic-freedom of the lossless validator), weight argument for the chunk-count sum; exhaustive truncation / mutation differential check under catch_unwind and a watchdog",
    },
    "C10": {
        "text": "Lean theorems: every read request the MP4 sanitizer program can issue, on any input, is for at most max(max_metadata_size, 1024) bytes, and a declared payload above the limit fails with InvalidInput before any I/O (C10_request_bound, C10_limit_before_alloc); after the header of any box other than ftyp/moov the iteration contains no read at all - only position/length queries and one skip (C10_media_not_read, a structural fact about the program); the outcome of any program on the ideal cursor depends only on the stream length and the bytes in the ranges it reads (C10_noninterference); through BufReader(cap), for every underlying reader, program and input, bytes delivered <= bytes returned by completed reads + cap x completed skips + cap at every point of the run (C10_physical_reads, an invariant proved per operation and lifted over I/O programs); the planned padding never exceeds the metadata, so the result is at most twice the re-encoded boxes (C10_pad_bounded). Correspondence and measurement on the real crates: metering Read+Skip and counting allocator over sparse multi-GiB layouts and adversarial size fields; exact agreement of read ranges with the model; webpsan peak heap against a constant for declared images up to 16384x16384 and chunks up to 2^32-30 bytes.",
        "note": "Partial: peak heap and byte counts are runtime facts, measured (not proved) on the real code against the stated bounds; the link 'read ranges = headers + ftyp + moov payloads' is checked per case against an independent box walker; webpsan's constant-memory claim is measured only. The check found F6 (padding of up to 4 GiB regardless of the limit), repaired in /repo (26a84ae). Trusted: see evidence.",
        "technique": "Lean 4 proof (structural read-freedom and request bounds of the sanitizer program, accounting invariant through BufReader, generic non-interference) + metered / heap-counted differential runs on sparse streams",
    },
    "C12": {
        "text": "Lean theorems: C12_native - for every native AsyncSkip reader, EVERY schedule of Pendings, every BufReader capacity and configuration, the sanitizer over the suspended reader returns the synchronous result (each awaited operation, polled until ready, returns the synchronous operation's value and state: simulation lifted through BufReader and then through every I/O program). SeekSkipAdapter over AsyncSeek: poll_skip (both branches) and poll_stream_position are restartable under every schedule (the cursor advances exactly once); poll_stream_len returns the length under every schedule and preserves the position unless its restoring seek is suspended (C12_seek_stream_len_partial), and C12_seek_partial lifts this to the whole sanitizer: async = sync unless a restoring seek was suspended. C12_seek_stream_len_witness proves the defect (F5). Correspondence: real sanitize_async under exhaustive <= 2-suspension schedules on three readers; the model reproduces every async result, including the defective ones.",
        "note": "KNOWN FINDING F5: SeekSkipAdapter::poll_stream_len loses the stream position when its third seek is suspended; sanitize_async then differs from the sync call on until-EOF boxes. Recorded in known_findings.json (not repaired: needs state in a public tuple struct or a trait change). Trusted: see evidence.",
        "technique": "Lean 4 proof (restartability of each poll function by induction over schedules, simulation lifted through BufReader and I/O programs, with an explicit escape for the defective operation) + exhaustive small-schedule differential check under a deterministic executor",
    },
    "C14": {
        "text": "Lean theorems (relation AgreeUnless e p q over I/O programs: p and q are the same program except where p fails with e; run_agree lifts it to every cursor): C14_limit - for limits L <= L', every cursor and stream, the MP4 run with limit L ends in InvalidInput or returns exactly the run with L' (hence acceptance is monotone in the limit and an accepted result never depends on it); the limit is compared before the payload is read (C14_limit_before_read). C14_unknown - the WebP run with allow_unknown_chunks off ends in UnsupportedChunk or equals the run with it on, through every loop of the container program; so no other error is masked and accepted inputs are unaffected. C14_cumulative_header - the option rewrites exactly the header of an until-EOF mdat to the given 32-bit size (values < 8 are then InvalidInput) and is the identity otherwise. Correspondence: configuration lattices run on the real crates (incl. the rewritten-size-field equivalence for cumulative_mdat_box_size) and compared with the model.",
        "note": "Trusted: Lean kernel and standard axioms; the models of both sanitizers (validated per case); the cumulative-size claim at whole-run level ('equals the input with the size field rewritten') is decided per case on the implementation, the theorem is at header level.",
        "technique": "Lean 4 proof by a program-agreement relation (induction over I/O programs and loop fuel) + differential check over configuration lattices",
    },
    "C15": {
        "text": "Lean theorem C15_refines: for every stream (< 2^62 bytes), seek-based or strict underlying skip, every capacity >= 1, every read chunking and EVERY history of read_exact / skip / stream_position / stream_len / fill_buf / read_to_end calls of any length, BufReader(cap) with the Skip impl of common/src/skip.rs returns exactly the bytes, positions, lengths and errors of the ideal cursor - proved as a per-operation simulation (abstraction: ideal position = inner position - buffered; buffer = stream bytes at the ideal position), including the read loop under arbitrary short reads, and lifted to histories by induction over I/O programs. SeekSkipAdapter: skip equals the ideal seek-based skip for every amount (also > i64::MAX) and stream_len restores the position. C15_chunk_data_reader / C15_chunk_data_beyond: webpsan's ChunkDataReader (webpsan/src/reader.rs), at nesting depth 1 and 2 - for every stream, every state of the reader stack with rem body bytes below the data reader and EVERY history of read / skip / stream_position / stream_len calls that stays inside them, the model of the data reader (the rawRead / rawSkip the model of webpsan::sanitize is built from) observes exactly what the ideal cursor over the same bytes observes; zero-length calls succeed on an exhausted body; beyond the body nothing is handed out. Correspondence: exhaustive short histories x capacities 1..9 x all 13 provided adapters (sync, async, forwarding, File), long random histories, sparse streams up to 2^64-1; ChunkDataReader driven directly (guarded re-export webpsan::verif_reader) at depth 1 and 2: every history up to length 4 (5) over reads and skips of 0..3 bytes and queries on bodies of 0..5 bytes, each also with one last operation leaving the body, and long random histories incl. files that end inside the body - compared with the ideal cursor confined to the body and with the model.",
        "note": "Trusted: Lean kernel and standard axioms; the adapter model (validated differentially against std/futures BufReader, Cursor, File); nested stacks and forwarding wrappers are covered by the correspondence only; the BufReader(8) inside a nested ChunkReader is abstracted by the model (validated by the depth-2 histories).",
        "technique": "Lean 4 refinement proof (simulation per operation, induction over the read loop and over histories) + exhaustive short-history differential check over all provided adapters",
    },
    "C11": {
        "text": "Lean theorems: parametricity - cursor implementations related by a simulation give the same outcome for both sanitizers (induction over I/O programs); with C15's simulation, BufReader of any capacity over any read chunking over a seek-based or strict input gives the ideal-cursor outcome (C11_adapters_mp4 / _webp), hence capacity and chunking are irrelevant. Correspondence: about 50 (mp4) / 25 (webp) ways of feeding the same bytes - all four entry points, sync and async, every provided adapter and depth-3 stacks, File, short-read patterns - must return identical results, equal to the model's answer on two different cursor instances.",
        "note": "Trusted: as C15; that the sync entry point is the async function over AsyncInputAdapter (sync.rs) is a definitional fact of the Rust source, exercised by the correspondence.",
        "technique": "Lean 4 parametricity proof over I/O programs + C15 simulation; differential check across entry points, adapter stacks and chunkings",
    },
    "C13": {
        "text": "Lean theorems: for EVERY program written in the I/O-program language (in particular both sanitizers), every cursor, fault position and error kind, a fault injected at operation k yields the fault-free outcome (run ends before k), Io(e), or - for UnexpectedEof only - the parse error of the map_eof site: never success and never a panic (run_faulty, instantiated as C13_fault_mp4 / C13_fault_webp); every read/skip of the MP4 sanitizer is a map_eof site (EofMapped, proved structurally over the whole program); every read/skip of the WebP sanitizer is a map_eof site too (Webp.sanitizeP_mapped, function by function); on the ideal in-memory cursor neither sanitizer ever returns Io except InvalidInput/InvalidData for a seek target beyond u64 (C13_memory_mp4, C13_memory_webp). Correspondence: exhaustive fault enumeration over a corpus x six kinds, sync and async; the MP4 model on BufReader(32)-over-faulty-input must reproduce the real outcome at every fault index.",
        "note": "Trusted: Lean kernel and standard axioms; that the sanitizers are faithfully written as I/O programs (validated differentially incl. index-aligned faulted runs for mp4).",
        "technique": "Lean 4 proof by induction over I/O programs (fault propagation, eof-mapping) + exhaustive fault enumeration against the real crates",
    },
    "C06": {
        "text": "Lean theorem C06_sound (SOUNDNESS, for EVERY stream, both Config values and both kinds of cursor): whatever the model of webpsan accepts, the independent recogniser Grammar (Spec/WebpGrammar.lean, a recursive-descent recogniser written from the property text and the container specification) accepts: one RIFF/WEBP container whose declared size accounts for every input byte (not truncated, nothing trailing, within the format's limit), every chunk inside its parent with odd sizes followed by a zero pad byte, the chunk sequence VP8 | VP8L | VP8X [ICCP] (ANIM ANMF+ | [ALPH] VP8|VP8L) [EXIF] [XMP] with only unknown chunks after it (and after the image inside an ANMF frame, only when allow_unknown_chunks), VP8X flags matching exactly the chunks present, VP8X/ANIM of their exact size, reserved bits zero, ALPH never combined with VP8L, lossless images and alpha planes valid for the canvas (still) or for their ANMF frame (animated). Proved with partial-correctness triples over the three-level chunk-reader stack in absolute stream offsets (Lemmas/WebpRel.lean: every reader operation, tilings of a region by chunks, the Open / Closed / Peeked states of a level, the unknown-chunk loops, the frame loop, the extended format, the file level), byte-level lemmas about the regenerated chunk schemas (Lemmas/WebpCodecRel.lean) and a pure half matching the established facts with the recogniser (Lemmas/WebpGrammarRel.lean). Further theorems about the reader-stack model: nested reads/skips never cross an enclosing chunk's remaining body, consumed bytes are accounted on every enclosing level, extracted constants and FourCCs are the model's. The converse (Grammar with valid lossless payloads => accepted) and accepted => Grammar again are evaluated on the real code over exhaustive chunk sequences x 32 flag sets (file level and inside ANMF), framing / size / padding / truncation families on seek-based and strict readers, RIFF sizes near 2^32 on sparse streams, and libwebp encoder + muxer output; the model must agree with webpsan on every case.",
        "note": "Partial: accepted => Grammar is a theorem of the model; the converse direction is decided per generated case on the implementation. The proof attempt exposed F10 (a frame's lossless alpha validated against the canvas dimensions, repaired in /repo 41e7bf8); the check found F1 (truncated file accepted on seek-based readers), F2 (lossless frames checked against the canvas instead of the frame) and F7 (largest RIFF size the format allows rejected), repaired in /repo. Trusted: see evidence.trusted_base.",
        "technique": "Lean 4 proof: relational (partial-correctness) program logic over the reader stack tying every accepted run to an independent grammar recogniser; exhaustive differential correspondence in both directions",
    },
    "C19": {
        "text": "Lean theorems (simulation through 'absolute bit index = 8*dropped + position; buffer ++ unread = remaining bytes'): fill_buf preserves the abstraction and position and leaves >= 8*cap-7 bits or everything; read(n) and read_huffman through the buffer return exactly what the whole-string reader returns, report end of data iff the whole string is exhausted, and re-establish the abstraction - for every capacity with n+8 <= 8*cap resp. longest+8 <= 8*cap, every input and every chunking (invisible to read_to_end); the sub-image loop's read-ahead is <= 81 bits < 8*16-7. Correspondence: public BitBufReader API at capacities 16..64 and 4096 under random field sequences and short-read patterns against both the buffered model and the whole-string reader; in situ via the capacity hook, webpsan's verdict at nine capacities must equal the verdict at 4096 and the ideal model's.",
        "note": "Trusted: Lean kernel and standard axioms; the BitBuf model (validated differentially); the hook. The lift from single operations to whole validator runs (C19_verdict) is carried by the in-situ correspondence; its proof is future work.",
        "technique": "Lean 4 refinement proof (buffered bit reader vs ideal bit string) + differential check through the public API and in situ through a guarded capacity hook",
    },
    "C18": {
        "text": "Lean theorem C18_accept_kraft: for EVERY code-length vector, if the model of CanonicalHuffmanTree::new accepts it then either exactly one symbol is used and its length is 1 (the zero-bit special case) or the Kraft sum of the used lengths is exactly 1 - no incomplete and no over-subscribed length set is ever accepted (proof: leaf weights in the bitstream-io trie - an insertion adds 2^(H-|code|), a finalised trie weighs 2^H -, the canonical assignment gives every symbol a code of its given length, sums are invariant under the (length, symbol) sort). Further: insertion into a complete trie always fails, compilation requires completeness, the single-symbol code consumes zero bits, decoding on a complete tree never reaches a panic site. Correspondence through the public CanonicalHuffmanTree / BitBufReader API: the real code, the model and an independent specification (Kraft sum = 1 or single length-1 symbol; next_code assignment; prefix-match decoding) must agree on acceptance, longest_code_len and every decoded symbol, exhaustively over small vectors and on random complete / under- / over-subscribed vectors over the real alphabets.",
        "note": "Partial: the converse (every Kraft-complete vector is accepted, with the canonical codes of the specification) is decided per generated case against the independent specification, not yet by a theorem. Trusted: see evidence.",
        "technique": "Lean 4 proof (trie weight invariant: accepted => Kraft sum 1; trie/canonical-code lemmas) + exhaustive small-vector three-way differential check (code, model, RFC specification)",
    },
    "C07": {
        "text": "Lean theorems about the model of the canonical-code builder and the lossless header-phase validator (see the Props file: each violation class named in the property is a rejection lemma of the model; the code tables equal the specification's). The whole-stream claim 'accepted => the reference decodes the header phase' is evaluated on the real code against libwebp 1.3.1 (executed, not modelled) over specification-synthesised streams with each rule violated in turn, encoder output and its mutations; the model must agree with webpsan on every payload.",
        "note": "Partial by nature: relative to libwebp as an executed oracle. The check found defect F3 (simple prefix codes: stream-order assignment, a symbol named twice read as a 1-bit code, symbols outside the alphabet accepted) and F10 (frame alpha validated against the canvas dimensions: a stream the reference rejects for the frame accepted), both repaired in /repo. Trusted: see evidence.trusted_base.",
        "technique": "Lean 4 proof of rejection lemmas and table obligations + three-way differential check (webpsan, Lean model, libwebp header-phase decoder)",
    },
    "C08": {
        "text": "Converse of C07 on the same streams: whatever libwebp's header-phase decoder accepts must be accepted by webpsan, except for the two documented strictness choices, which the driver recognises by re-running the Lean model with exactly those two checks relaxed. Lean theorems: the specification's corner cases (single-leaf codes consume zero bits, a two-symbol simple code naming one symbol twice is that single-leaf code, every transform order is accepted by the transform loop) hold of the model; the container side is C06.",
        "note": "Partial by nature (executed reference). The check found F3 (see C07), F2 (sub-canvas lossless frames, see C06) and F10 (lossless alpha of a sub-canvas animation frame validated against the canvas dimensions; repaired in /repo 41e7bf8). Trusted: see evidence.trusted_base.",
        "technique": "Lean 4 proof of acceptance corner cases + three-way differential check incl. libwebp encoder output",
    },
    "C16": {
        "text": "Lean theorems: header decode∘encode = id on well-formed headers, encode∘decode reproduces the consumed bytes, put_buf writes exactly encoded_len bytes; the two constructors declare exactly header + payload, choose the 64-bit form iff the 32-bit one cannot hold it, never yield until-EOF, decode back, and fail iff the size leaves u64; Boxes::parse followed by serialization is the identity with encoded_len = length for every accepted byte string; the sanitizer's lazy typed-accessor path (moov → traks → mdia → minf → stbl → stco|co64) leaves serialization and length unchanged (a congruence-parametric preservation proof over the five nesting levels); every extracted mp4_int! row round-trips (big-endian). Correspondence through the public mp4san::parse API over header grids, constructor boundary grids and random trees x accessor-call sequences.",
        "note": "Trusted: Lean kernel and standard axioms; model of BytesMut/derive expansion validated differentially; harness + driver. Preconditions stated in evidence.assumptions (FourCC spelling `uuid`; failed accessors).",
        "technique": "Lean 4 proof (case analysis on header shapes, induction over box lists, relation-parametric preservation across nesting levels) + differential check via the public parse API",
    },
    "C02": {
        "text": "Lean theorem C02_structure (for EVERY stream, configuration and cursor kind): whenever the model of sanitize returns metadata, the INDEPENDENT walker and structure check Spec_C02_structure (Spec/Mp4Rules.lean - the very function the check evaluates on the real output) finds in it exactly [ftyp, moov] or [ftyp, moov, free], every box with an explicit size, the sizes tiling the metadata, the padding zero. Proved from: the encoded header is what the walker reads back at its offset (Lemmas/MetaWalk.lean hdrAt_encode, chain_ser, walk_ser), the kept ftyp / moov serialise to exactly encoded_len bytes (an invariant of the scan loop, scan_ser), the displacement keeps every length (displaceMoov_len), and the component theorems: the re-derived ftyp/moov headers always carry an explicit size declaring exactly header + payload (never until-EOF) and are well-formed (decode back, C16); the padding header is the 32-bit free box declaring exactly the pad; the assembled metadata is body ++ pad header ++ zeros of length metadata_len + pad. The fixpoint half is checked on the real code: the harness concatenates the returned metadata with the media span (sparse-aware), re-sanitizes, and the driver requires 'nothing to do' with span {|md|, len}; the model must agree on both runs.",
        "note": "Partial: the structure of every returned metadata is a theorem of the model (C02_structure); the re-sanitize fixpoint is established per generated case on the implementation (and compared with the model), not by a theorem. Trusted: Lean kernel and the three standard axioms; model validated differentially; walker; harness + driver.",
        "technique": "Lean 4 proof of the output structure + differential correspondence incl. a real re-sanitize of every rewritten output",
    },
    "C03": {
        "text": "Lean theorems C03_spec_holds / C03_media_run: for EVERY stream, seek-based or strict skip, and every configuration, whenever the model of sanitize returns a result the INDEPENDENT box walker (Spec/Mp4Walk.lean, written from the box syntax) finds the whole input to be a clean sequence of top-level boxes - so a box overrunning the input is never accepted, on seek-based cursors too - and the returned span lies inside the input, starts at the header of the first mdat, ends where the maximal run of mdat/free/skip/meta/meco boxes starting there ends, and contains every mdat: the executable specification Spec_C03 has no complaint about any result of the model (with and without cumulative_mdat_box_size, size 0 / 32-bit / 64-bit / uuid headers). Proved with partial-correctness triples over I/O programs (Lemmas/Tri.lean) relating every header the scan loop reads to the walker's headerAt (Lemmas/ScanRel.lean: the loop walks a chain of walker boxes, its span is the fold of the bookkeeping over that chain), a list lemma showing that the fold over a consecutive box sequence is the maximal media run and fails when an mdat lies outside it (Lemmas/MediaRun.lean), and the end-of-scan check. C03_span_within_input (program logic Safe, loop invariant) gives offset+len <= length independently. Component lemmas: the end-of-scan check passes iff position <= length (else TruncatedBox); strict skips/reads never leave the stream; seekable skips land exactly at pos+n without wrapping. The same Spec_C03 is evaluated on the REAL output for all reader kinds (Cursor, SeekSkipAdapter, strict, by-value / &mut / Box carriers), sparse streams up to 2^64-1, until-EOF mdat with and without cumulative size, and the model must reproduce every outcome.",
        "note": "The check found defect F1 (overrunning box accepted on seekable readers), repaired in /repo commit bdda8a4. Trusted: as C01.",
        "technique": "Lean 4 proof: relational (partial-correctness) program logic tying the scan loop to an independent box walker, list lemma for the maximal media run, Hoare-style loop invariant for the span bound; differential correspondence across reader kinds with the same executable specification",
    },
    "C04": {
        "text": "Lean theorem C04_carried (for EVERY stream, configuration and cursor kind): whenever the model of sanitize returns metadata, the ftyp payload inside it is the payload of the input's ftyp box byte for byte, and the moov payload inside it is the payload of the input's last moov (as the INDEPENDENT walker delimits it) with every byte outside the chunk-offset tables the walker finds in it (moovTables) unchanged, at the same place, in the same length - the frame property over the five nesting levels (Lemmas/Splice.lean, Fusion.lean, KeepRel.lean; shared with C01_relocated). Component theorems: the table rewrite preserves width, count, array length, serialized length and the 8 bytes before the array; a parsed ftyp re-serializes to its bytes for every length >= 8. Spec_C04 compares, on the real output, the ftyp payload and every moov payload byte outside the walker's tables with the input, on rich trees (unknown/uuid siblings at all five levels, 64-bit and until-end child headers).",
        "note": "Partial only in this: the theorem speaks of the tables the walker finds in the INPUT; Spec_C04 (walker run on the OUTPUT) is decided per generated case on the implementation. Trusted: as C01.",
        "technique": "Lean 4 proof of the rewrite's frame over the whole box tree (splice lemma against an independent walker, fusion of lazy parsing, scan-loop invariant) + byte-level differential check against the walker on the real output",
    },
    "C05": {
        "text": "Lean theorems C05_accept_rules / C05_accept_top_rules / C05_nometadata_iff / C05_spec_noop (SOUNDNESS of the documented rules, for EVERY stream, configuration and cursor kind): whenever the model of sanitize returns a result, Rules of the independent specification (Spec/Mp4Rules.lean over the independent walker) holds of the input: a clean sequence of complete top-level boxes in which only free/skip precede the single ftyp, ftyp payload 8..1024 bytes listing isom, every box ftyp/moov/mdat/free/skip/meta/meco, at least one moov and one mdat, every mdat in the one media run, and every moov within max_metadata_size whose children are a clean box sequence with at least one trak, each trak holding exactly one mdia>minf>stbl chain with exactly one version-0 stco xor co64 whose count exactly fills its box (below 4 GiB); no metadata is returned exactly when the Spec's NoMetadata holds, and Spec_C05 has no complaint about such an answer. Proved with the relational program logic (Lemmas/Tri.lean; ScanRel/TopRel: the scan loop refines a top-level state machine over the walker's boxes; TreeRel: the model's lazily parsed tree over a slice of the stream sees exactly the walker's children/only/tableOf of that region, level by level) and list lemmas. Further (decision logic stated outright): a chunk-offset table is accepted iff version/flags are zero, the count exactly fills the box and the table is below 4 GiB, with the error kind of each violation; after the scan missing ftyp/moov/mdat is MissingRequiredBox and 'nothing to do' is returned iff the last moov starts before the first mdat; ftyp payloads below 8 bytes are TruncatedBox. Spec_C05 (accepted iff Rules and not an overflow refusal; no-op iff moov first), written over the independent walker, is evaluated on the real code over exhaustive top-level layouts, header pathologies, every moov-tree rule broken in turn and truncations, for both reader kinds.",
        "note": "Partial: accepted -> Rules (nothing outside the rules is accepted) is a theorem of the model; the converse (every file meeting the rules is accepted unless a rewrite overflows) and the overflow-refusal clause are decided per generated case on the implementation. The check found defect F1 (see C03). Trusted: as C01.",
        "technique": "Lean 4 proof of the component decisions + exhaustive small-layout differential check against a declarative rule set",
    },
    "C01": {
        "text": "Lean theorem C01_relocated (for EVERY stream, configuration and cursor kind): whenever the model of sanitize returns metadata, the INDEPENDENT walker finds the input to be a clean top-level box sequence with a last moov m whose chunk-offset tables are moovTables s m = rs (one per trak, stco or co64); the moov payload sits in the returned metadata at an explicit offset mo, and EVERY entry of EVERY table of rs, read from the metadata at the same place relative to the payload, equals the input entry plus (|metadata| - span.offset) exactly, inside its field (no wrap, no truncation). Proved from: what a mutation of one table does to the serialisation of the freshly parsed five-level box tree, stated against the walker's geometry (Lemmas/Splice.lean: the region's bytes with exactly that table's entries replaced, level by level up to every trak of the moov); the displacement running on the tree the scan has already partly parsed gives the same bytes as on the payload as read (Fusion.lean); the moov the scan keeps is the walker's LAST moov, validated from exactly its payload bytes (KeepRel.lean, relational triples over the scan loop); the entry arithmetic (Mp4Displace.lean) and the plan arithmetic (metadata length incl. padding - offset = the displacement applied, 0 when padded). Further Lean theorems about the model of the MP4 rewrite: planRewrite arithmetic (shift = |metadata| - span.offset, fits i32, padding only when it zeroes the shift, refusal iff neither fits), exactness of the table rewrite for every width/count/displacement (each entry = old + shift, field never wraps, refusal iff an entry leaves its field, no panic), and the per-entry test equals the extracted checked_add_signed. The model is compared with the real crate on the remux generator (sparse gaps up to > 2^33, boundary entries, both reader kinds) and on tables whose entry count crosses the 8- and 16-bit boundaries (255..257, 65535..65537 entries, stco and co64, next to a small table of the other width) and Spec_C01 (independent walker: same tables, every entry shifted by |md| - span.offset) is evaluated on the real output of every case.",
        "note": "Partial only in this: the theorem locates the tables in the returned metadata by the INPUT's geometry (same place relative to the moov payload); that the independent walker, run on the OUTPUT, finds them there (the frame property of the walker) is decided per generated case by Spec_C01 on the real output, not by a theorem. Trusted: Lean kernel; propext, Quot.sound, Classical.choice; the hand-written model (validated differentially); the walker; harness + driver.",
        "technique": "Lean 4 proof: relational program logic over the scan loop + structural induction over the five-level lazily parsed box tree against an independent walker (splice lemma), fusion of lazy parsing, induction over the entry array, case analysis of the rewrite plan; differential correspondence with spec evaluation on the implementation's output",
    },
    "C17": {
        "text": "Schema-generic Lean theorems (parse∘put = id on well-formed values, put∘parse = id on the success domain, no panic with >= ENCODED_LEN bytes, reserved-byte violations are InvalidInput) instantiated at chunk schemas regenerated from webpsan/src/parse/*.rs on every run; table obligations (by decide) that every integer getter/putter pair agrees and is little-endian, that put_buf writes fields in parse order, and that declared ENCODED_LEN is the field sum. Correspondence through the public webpsan::parse API, exhaustive for 8/16-bit primitives, judged against a hand-written little-endian layout oracle.",
        "note": "Trusted: Lean kernel; propext, Quot.sound (Classical.choice where simp uses it); the extraction anchors; semantics of bytes::Buf/BufMut method names and bitflags::from_bits; the hand-written layout oracle; harness + driver.",
        "technique": "Lean 4 proof over extracted codec schemas (generic round-trip lemmas + decide on the tables); differential check via public parse API",
    },
    "C20": {
        "text": "Width-generic Lean theorem (C20_exact / C20_some_iff / C20_none_iff) about the function body regenerated from common/src/util.rs on every run: the result is the mathematical sum when representable in n bits and None otherwise, for every n; the six macro instances are checked to pair same-width unsigned/signed types. Correspondence: all 65 536 (u8,i8) pairs plus lattice/random pairs for every wider instance run on the real crate and are compared with the model and with integer arithmetic.",
        "note": "Trusted: Lean kernel; propext, Quot.sound; the mini Rust-expression translator in extract/rustexpr.py and the meaning given to overflowing_add/as/</^ in MediaSan/Rust.lean; harness + driver for the differential part.",
        "technique": "Lean 4 proof over BitVec n of the extracted function; exhaustive u8 (and u16 in thorough) differential check",
    },
}
