#!/bin/sh
# MANIFEST.setup_cmd — build the framework offline from files on disk only.
set -e
cd "$(dirname "$0")"
export CARGO_NET_OFFLINE=true
python3 extract/extract.py >/dev/null || echo "setup: extraction reported a failed anchor (checks will report it)"
(cd lean && lake build MediaSan driver 2>&1 | tail -3) || echo "setup: lake build failed (checks will report it)"
cp -f /repo/Cargo.lock harness/Cargo.lock 2>/dev/null || true
(cd harness && cargo build --release --offline 2>&1 | tail -2) || echo "setup: cargo build failed (checks will report it)"
echo "setup done"
